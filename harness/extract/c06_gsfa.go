package main

// C06: thresholds and three structural facts of gsfa/gsfa-write.go -> Generated/Gsfa.lean
//
//	gsfaItemsPerBatch, gsfaParkLimit, gsfaChanCap, gsfaPeriodicKeys, gsfaPeriodicSlot, gsfaPeriodicValues,
//	gsfaRankListSize           the literals the model takes as `Params` (none = literal not recognised)
//	gsfaTmpBufStartsEmpty      `tmpBuf := make(slice, 0, n)` (not `make(slice, n)`, which is n empty elements)
//	gsfaDrainsParkedOnExit     the background goroutine does something (other than logging) between noticing
//	                           `exiting && len(chan) == 0` and signalling fullBufferWriterDone
//	gsfaCloseWaitsBeforeFlush  in Close, `<-a.fullBufferWriterDone` comes before `a.flushAccum(a.accum)`
//
// The three Bool facts are what /verif/fixes/C06-1.patch establishes; Faithful/Properties/C06.lean has the
// obligation that they are all `true` (the model describes the repaired writer).
// Registered from init() so that main.go needs no edit.

import (
	"fmt"
	"go/ast"
	"go/constant"
	"go/token"
	"strings"

	"golang.org/x/tools/go/packages"
)

func init() { generators = append(generators, genGsfa) }

// gsfaFunc finds the function `name`, or the method `name` of *GsfaWriter when several types have one
func gsfaFunc(p *packages.Package, name string) *ast.FuncDecl {
	var first *ast.FuncDecl
	for _, f := range p.Syntax {
		for _, d := range f.Decls {
			if fd, ok := d.(*ast.FuncDecl); ok && fd.Name.Name == name && fd.Body != nil {
				if fd.Recv != nil && len(fd.Recv.List) == 1 && strings.Contains(gsfaSrc(p, fd.Recv.List[0].Type), "GsfaWriter.") {
					return fd
				}
				if first == nil {
					first = fd
				}
			}
		}
	}
	return first
}

func gsfaIntLit(p *packages.Package, e ast.Expr) (string, bool) {
	tv, ok := p.TypesInfo.Types[e]
	if !ok || tv.Value == nil {
		return "", false
	}
	iv := constant.ToInt(tv.Value)
	if iv.Kind() != constant.Int {
		return "", false
	}
	return iv.ExactString(), true
}

func gsfaSrc(p *packages.Package, n ast.Node) string {
	var b strings.Builder
	ast.Inspect(n, func(x ast.Node) bool {
		switch v := x.(type) {
		case *ast.Ident:
			b.WriteString(v.Name)
			b.WriteString(".")
		}
		return true
	})
	return b.String()
}

func genGsfa() {
	p := pkg("gsfa")
	vals := map[string]string{}
	set := func(k, v string) {
		if old, ok := vals[k]; ok && old != v {
			vals[k] = "ambiguous"
			return
		}
		vals[k] = v
	}
	if v, ok := constValue(p, "itemsPerBatch"); ok {
		set("gsfaItemsPerBatch", constant.ToInt(v).ExactString())
	}
	tmpBufEmpty, drains, closeOrder := "unknown", "unknown", "unknown"

	if fd := gsfaFunc(p, "NewGsfaWriter"); fd != nil {
		ast.Inspect(fd, func(n ast.Node) bool {
			c, ok := n.(*ast.CallExpr)
			if !ok {
				return true
			}
			if id, ok := c.Fun.(*ast.Ident); ok {
				if id.Name == "make" && len(c.Args) == 2 {
					if _, isChan := c.Args[0].(*ast.ChanType); isChan {
						if v, ok := gsfaIntLit(p, c.Args[1]); ok {
							set("gsfaChanCap", v)
						}
					}
				}
				if id.Name == "newRollingRankOfTopPerformers" && len(c.Args) == 1 {
					if v, ok := gsfaIntLit(p, c.Args[0]); ok {
						set("gsfaRankListSize", v)
					}
				}
			}
			return true
		})
	}

	if fd := gsfaFunc(p, "fullBufferWriter"); fd != nil {
		limitName := ""
		ast.Inspect(fd, func(n ast.Node) bool {
			switch x := n.(type) {
			case *ast.AssignStmt:
				if x.Tok == token.DEFINE && len(x.Lhs) == 1 && len(x.Rhs) == 1 {
					name := x.Lhs[0].(*ast.Ident).Name
					if name == "howManyBuffersToFlushConcurrently" {
						if v, ok := gsfaIntLit(p, x.Rhs[0]); ok {
							set("gsfaParkLimit", v)
							limitName = name
						}
					}
					if name == "tmpBuf" {
						if c, ok := x.Rhs[0].(*ast.CallExpr); ok {
							if id, ok := c.Fun.(*ast.Ident); ok && id.Name == "make" {
								switch len(c.Args) {
								case 3:
									if v, ok := gsfaIntLit(p, c.Args[1]); ok && v == "0" {
										tmpBufEmpty = "true"
									} else {
										tmpBufEmpty = "false"
									}
								case 2:
									tmpBufEmpty = "false" // make(slice, n): n empty elements
								}
							}
						}
					}
				}
			case *ast.IfStmt:
				// if a.exiting.Load() && len(a.fullBufferWriterChan) == 0 { … a.fullBufferWriterDone <- struct{}{}; return }
				src := gsfaSrc(p, x.Cond)
				if strings.Contains(src, "exiting.") && strings.Contains(src, "fullBufferWriterChan.") {
					drains = "false"
					for _, st := range x.Body.List {
						if s, ok := st.(*ast.SendStmt); ok && strings.Contains(gsfaSrc(p, s.Chan), "fullBufferWriterDone.") {
							break
						}
						if es, ok := st.(*ast.ExprStmt); ok {
							if c, ok := es.X.(*ast.CallExpr); ok && !strings.HasPrefix(gsfaSrc(p, c.Fun), "klog.") {
								drains = "true"
							}
						}
					}
				}
			}
			return true
		})
		_ = limitName
	}

	if fd := gsfaFunc(p, "Push"); fd != nil {
		ast.Inspect(fd, func(n ast.Node) bool {
			b, ok := n.(*ast.BinaryExpr)
			if !ok {
				return true
			}
			switch b.Op {
			case token.EQL: // slot%500 == 0
				if l, ok := b.X.(*ast.BinaryExpr); ok && l.Op == token.REM && strings.HasPrefix(gsfaSrc(p, l.X), "slot.") {
					if v, ok := gsfaIntLit(p, l.Y); ok {
						if z, ok := gsfaIntLit(p, b.Y); ok && z == "0" {
							set("gsfaPeriodicSlot", v)
						}
					}
				}
			case token.GTR: // a.accum.Len() > 100_000
				if strings.Contains(gsfaSrc(p, b.X), "accum.Len.") {
					if v, ok := gsfaIntLit(p, b.Y); ok {
						set("gsfaPeriodicKeys", v)
					}
				}
			case token.LSS: // len(values) < 100
				if gsfaSrc(p, b.X) == "len.values." {
					if v, ok := gsfaIntLit(p, b.Y); ok {
						set("gsfaPeriodicValues", v)
					}
				}
			}
			return true
		})
	}

	if fd := gsfaFunc(p, "Close"); fd != nil && fd.Recv != nil {
		// position of the first flushAccum call and of the receive from fullBufferWriterDone
		flushPos, waitPos := token.NoPos, token.NoPos
		ast.Inspect(fd, func(n ast.Node) bool {
			switch x := n.(type) {
			case *ast.CallExpr:
				if strings.HasSuffix(gsfaSrc(p, x.Fun), "flushAccum.") && flushPos == token.NoPos {
					flushPos = x.Pos()
				}
			case *ast.UnaryExpr:
				if x.Op == token.ARROW && strings.Contains(gsfaSrc(p, x.X), "fullBufferWriterDone.") && waitPos == token.NoPos {
					waitPos = x.Pos()
				}
			}
			return true
		})
		if flushPos != token.NoPos && waitPos != token.NoPos {
			closeOrder = fmt.Sprint(waitPos < flushPos)
		}
	}

	var b strings.Builder
	b.WriteString("-- GENERATED by /verif/harness/extract (c06_gsfa.go) from /repo's working tree. Do not edit.\nnamespace Generated\n\n")
	for _, k := range []string{"gsfaItemsPerBatch", "gsfaParkLimit", "gsfaChanCap", "gsfaPeriodicKeys", "gsfaPeriodicSlot", "gsfaPeriodicValues", "gsfaRankListSize"} {
		v, ok := vals[k]
		if !ok || v == "ambiguous" {
			// not added to `fails` (that would break every property's check): C06's own obligation
			// `gen_thresholds_recognised` fails instead
			fmt.Fprintf(&b, "def %s : Option Nat := none\n\n", k)
			continue
		}
		fmt.Fprintf(&b, "def %s : Option Nat := some %s\n\n", k, v)
	}
	for _, kv := range [][2]string{{"gsfaTmpBufStartsEmpty", tmpBufEmpty}, {"gsfaDrainsParkedOnExit", drains}, {"gsfaCloseWaitsBeforeFlush", closeOrder}} {
		if kv[1] == "unknown" {
			fmt.Fprintf(&b, "/-- not recognised in the source -/\ndef %s : Option Bool := none\n\n", kv[0])
		} else {
			fmt.Fprintf(&b, "def %s : Option Bool := some %s\n\n", kv[0], kv[1])
		}
	}
	b.WriteString("end Generated\n")
	write("Gsfa.lean", b.String())
}

#!/usr/bin/env python3
"""Regenerates MANIFEST.json from props/*.json + manifest_meta.json (which properties are claimed, level notes)."""
import json, os
V = os.path.dirname(os.path.abspath(__file__))
props = [json.loads(l) for l in open(os.path.join(V, 'properties.jsonl'))]
meta = json.load(open(os.path.join(V, 'manifest_meta.json')))
claimed = meta['claimed']
checks = []
for pid in sorted(claimed):
    c = claimed[pid]
    checks.append(dict(
        property_id=pid, quick_cmd=f'./check {pid} --tier quick', thorough_cmd=f'./check {pid} --tier thorough',
        evidence_file=f'/verif/evidence/{pid}.json', replay_cmd_template=f'./check {pid} --replay {{path}}',
        engine='lean4+go-harness',
        level_claimed=dict(category='proof', text=c['text'], design_ref=f'DESIGN.md §5 {pid}'),
        level_note=c.get('note', 'Lean 4.33 kernel; axioms propext/Classical.choice/Quot.sound only; translator harness/extract; correspondence harness + fdrv driver; see DESIGN.md §3'),
        technique=c.get('technique', 'Lean 4 proof over an executable model + model/implementation correspondence run')))
m = dict(version=1, setup_cmd='./setup.sh',
         hooks=dict(guard='verif', enable='go test -tags verif -modfile <scratch go.mod> -overlay <generated overlay.json> (harness files are injected from /verif/harness/tree; nothing is written to /repo)',
                    baseline_off_cmd='cd /repo && GOFLAGS=-mod=mod go test -vet=off -count=1 ./...', source_commits=[], add_only=True),
         engines=[dict(name='lean4+go-harness', path='/verif/check', serves_properties=sorted(claimed),
                       kind_free_text='Lean 4 proofs (lake project /verif/lean, core only) + translator (harness/extract) + Go correspondence harness injected with go test -overlay + per-property Lean driver executable')],
         checks=checks, notes=meta.get('notes', ''),
         not_applicable=[dict(property_id=p['id'], reason=meta['unclaimed'].get(p['id'], 'machinery under construction in this session; not claimed yet'))
                         for p in props if p['id'] not in claimed])
json.dump(m, open(os.path.join(V, 'MANIFEST.json'), 'w'), indent=1)
print('claimed', sorted(claimed))

#!/bin/sh
# usage: applyfix.sh <Cxx-n>  — applies /verif/fixes/<id>.patch to /repo, builds, runs the affected package tests + root tests, commits with fixes/<id>.msg
set -e
id=$1
cd /repo
export GOFLAGS=-mod=mod GOPROXY=off GOSUMDB=off GOTOOLCHAIN=local
git apply --check /verif/fixes/$id.patch
git apply /verif/fixes/$id.patch
mkdir -p /tmp/modfix && cp go.mod go.sum /tmp/modfix/
go build -modfile=/tmp/modfix/go.mod ./... 
pk=$(git diff --name-only | xargs -n1 dirname | sort -u | sed 's#^#./#')
go test -modfile=/tmp/modfix/go.mod -vet=off -count=1 $pk 2>&1 | tail -15
git add -A
git commit -q -F /verif/fixes/$id.msg
git log --oneline | head -1
